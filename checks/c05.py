"""C05 -- options documented as soundness-neutral do not change the verdict (DESIGN.md section 4, C05).

Pipeline: TLC(OptionSpace) -> option vectors (covering set: every pair of option values + every
summarize-on-demand x pkg-filter class x max-alarms combination, seeded tie-breaks) -> one config file per vector;
programs = (a) a seeded sample of the C01 chains (TLC ProgSpace) rendered with two sources and three sink calls,
(b) one two-package program per instruction kind that reads / writes a global in a function other than the
writer / reader, (c) programs of the repository's own taint testdata with their own config.yaml;
the REAL taint.Analyze (and backtrace.Analyze, eager / on demand) on every (program, vector) (harness/cmd/optrun:
one program per load, nothing overridden);  TLC(Options) decides Neutral / AlarmBound over the recorded result sets.
A failure is attributed to a known finding only by the construct that fails (instruction kind / step + the laziness
class of the failing vectors); everything else is a VIOLATION.
"""
import itertools
import json
import os
import random

import minigo
import optlib
import sem
import semgen
import vlib
from vlib import Inconclusive

POOL = 4
BATCH = 20

# steps whose flow crosses a place where the visitor may have to build a summary lazily
LAZY_STEPS = {"gstore", "gload", "gstorefn", "gloadfn", "gptrstore", "gptrload", "fnglobal", "capread", "callclo",
              "capwrite", "cloparam", "retclo", "deferclo", "defernamed", "idcall", "outparam", "retptr", "tuple0",
              "tuple1", "funcval", "methodval", "rec", "twoargs", "fnparam", "deferarg", "deferwrite", "invoke",
              "ifaceput", "mkifaceA", "mkifaceB", "mkifaceV", "garr", "gfield", "gslice", "gmap"}

REPO_FIXED = ["globals", "closures", "parameters"]          # always part of the repository sample
REPO_SKIP = {"benchmark", "playground", "src", "agent-example", "stdlib", "stdlib_121", "stdlib-no-effect-constraint",
             "escape-integration", "sample-escape", "with-context", "fromlevee"}   # slow to load or not single programs


def local_known():
    p = os.path.join(vlib.VERIF, "known_findings.d", "C05.json")
    return json.load(open(p)) if os.path.exists(p) else []


def lazy_class(v, multi_pkg):
    """how a vector makes summaries lazy: on demand, or a pkg-filter that leaves (part of) the program unsummarised"""
    if v["od"] == 1:
        return "on-demand"
    if v["pf"] == 3:
        return "pkg-filter-none-matching"
    if v["pf"] == 2 and multi_pkg:
        return "pkg-filter-main-only"
    return "eager"


def run(ctx):
    thorough = ctx.tier == "thorough"
    rnd = random.Random(ctx.seed)
    bins = ctx.build(["optrun"])
    kf = local_known() or ctx.kf

    # ---- 1. option vectors from TLC ---------------------------------------------------------------------------
    T = 2
    must = [(1, 2, 8)]
    groups = [set(c) for c in itertools.combinations(range(1, 9), T)] + [set(m) for m in must]
    fmt = lambda s: "{" + ", ".join(map(str, sorted(s))) + "}"
    cfg = ("SPECIFICATION Spec\nCONSTANTS T = %d\n Seed = %d\n Extra = %d\n Must = {%s}\n Groups = {%s}\n"
           "INVARIANT TypeOK\nCONSTRAINT Collect\nPROPERTY Progress\nPOSTCONDITION Post\nCHECK_DEADLOCK FALSE\n" % (
               T, ctx.seed % 1000, 60 if thorough else 2, ", ".join(fmt(set(m)) for m in must),
               ", ".join(fmt(g) for g in groups)))
    r = ctx.tlc_must_pass("OptionSpace", cfg="OptionSpaceRun.cfg", data={"OptionSpaceRun.cfg": cfg}, subdir="optionspace",
                          timeout=1500, deadlock=False)
    vp = os.path.join(r.dir, "vectors.ndjson")
    if "OPTIONSPACE" not in r.out or not os.path.exists(vp):
        raise Inconclusive("OptionSpace did not reach its postcondition:\n" + r.out[-3000:])
    vectors = sorted(vlib.read_ndjson(vp), key=lambda v: v["code"])
    if len(vectors) < 20:
        raise Inconclusive("OptionSpace produced only %d vectors" % len(vectors))
    byname = {optlib.vec_name(v): v for v in vectors}

    # ---- 2. programs --------------------------------------------------------------------------------------------
    k1 = sem.enum_chains(ctx, 1, semgen.DECORATIONS, maxdeco=1, tag="k1")
    k2 = sem.enum_chains(ctx, 2, ["plain"], maxdeco=0, tag="k2")
    lazy1 = sorted({tuple(c) for c in k1 if any(s in LAZY_STEPS or d in ("helper", "iife") for s, d in c)})
    lazy2 = sorted({tuple(c) for c in k2 if len(c) == 2 and sum(1 for s, _ in c if s in LAZY_STEPS) >= 1})
    rnd.shuffle(lazy1)
    rnd.shuffle(lazy2)
    chains = lazy1[: (300 if thorough else 24)] + lazy2[: (300 if thorough else 16)]
    pinned = []
    for e in kf:
        pth = e.get("pinned_input")
        if pth and os.path.exists(os.path.join(vlib.VERIF, pth)):
            pinned.append((e, json.load(open(os.path.join(vlib.VERIF, pth)))))
    kinds = sorted(optlib.GLOBAL_KINDS) + sorted(optlib.DEPTH_KINDS)

    root = os.path.join(ctx.work, "c05")
    os.makedirs(root)
    progs = []     # dict(name, cls, mod, pattern, desc, multi)
    mods = {}

    def new_mod(i, pf_table):
        mod = os.path.join(root, "m%03d" % i)
        os.makedirs(os.path.join(mod, "reports"))
        with open(os.path.join(mod, "go.mod"), "w") as fh:
            fh.write("module prog\n\ngo 1.22\n")
        for v in vectors:
            rd = os.path.join(mod, "reports", optlib.vec_name(v))
            optlib.write_gen_config(os.path.join(mod, optlib.vec_name(v) + ".yaml"), optlib.vec_options(v, pf_table, rd))
        for od in (0, 1):
            optlib.write_gen_config(os.path.join(mod, "bt%d.yaml" % od), {"log-level": 1, "summarize-on-demand": bool(od)})
        mods[mod] = []
        return mod

    nmod = 0
    items = [("kind", k) for k in kinds] + [("chain", list(c)) for c in chains]
    for e, j in pinned:
        if "kind" in j and ("kind", j["kind"]) not in items:
            items.append(("kind", j["kind"]))
        if "chain" in j:
            items.append(("chain", [tuple(x) for x in j["chain"]]))
    for i, (cls, it) in enumerate(items):
        if i % BATCH == 0:
            mod = new_mod(nmod, optlib.PF_GENERATED)
            nmod += 1
        name = "%s%03d" % ("k" if cls == "kind" else "p", i)
        d = os.path.join(mod, name)
        if cls == "kind":
            optlib.write_kind_program(d, name, it)
            desc = {"kind": it}
        else:
            minigo.write_program(d, optlib.build_chain2([tuple(x) for x in it], name=name))
            desc = {"chain": [list(x) for x in it]}
        p = {"name": name, "cls": cls, "mod": mod, "pattern": "./" + name, "desc": desc, "multi": cls == "kind", "dir": d}
        progs.append(p)
        mods[mod].append(p)

    # repository testdata programs: their own config.yaml with the options under test overridden
    tdir = os.path.join(vlib.REPO, "analysis", "taint", "testdata")
    avail = sorted(d for d in os.listdir(tdir) if d not in REPO_SKIP and os.path.exists(os.path.join(tdir, d, "config.yaml"))
                   and os.path.exists(os.path.join(tdir, d, "main.go")))
    rest = [d for d in avail if d not in REPO_FIXED]
    rnd.shuffle(rest)
    repo_sel = [d for d in REPO_FIXED if d in avail] + rest[: (len(rest) if thorough else 2)]
    for d in repo_sel:
        cdir = os.path.join(root, "repo-" + d)
        os.makedirs(os.path.join(cdir, "reports"))
        for v in vectors:
            rd = os.path.join(cdir, "reports", optlib.vec_name(v))
            optlib.write_repo_config(os.path.join(cdir, optlib.vec_name(v) + ".yaml"), os.path.join(tdir, d, "config.yaml"),
                                     optlib.vec_options(v, optlib.PF_REPO, rd))
        p = {"name": "repo-" + d, "cls": "repo", "mod": os.path.join(tdir, d), "pattern": ".", "desc": {"repo_testdata": d},
             "multi": any(os.path.isdir(os.path.join(tdir, d, x)) for x in os.listdir(os.path.join(tdir, d))), "dir": os.path.join(tdir, d),
             "cfgdir": cdir}
        progs.append(p)

    # ---- 3. the real analyses -----------------------------------------------------------------------------------
    vnames = [optlib.vec_name(v) for v in vectors]
    allrecs = {}

    def run_mod(mod):
        plist = mods[mod]
        recs, err, rc = optlib.optrun(bins, mod, [p["pattern"] for p in plist], os.path.join(mod, "res.ndjson"),
                                      taint=[os.path.join(mod, n + ".yaml") for n in vnames],
                                      backtrace=[os.path.join(mod, "bt0.yaml"), os.path.join(mod, "bt1.yaml")], timeout=3000)
        if rc != 0:
            raise Inconclusive("optrun failed on %s (rc %s): %s" % (mod, rc, err[-1500:]))
        for p in plist:
            allrecs[p["name"]] = [x for x in recs if x["prog"] == p["pattern"]]

    def run_repo(p):
        recs, err, rc = optlib.optrun(bins, p["mod"], ["."], os.path.join(p["cfgdir"], "res.ndjson"),
                                      taint=[os.path.join(p["cfgdir"], n + ".yaml") for n in vnames], timeout=3000)
        if rc != 0:
            raise Inconclusive("optrun failed on %s (rc %s): %s" % (p["mod"], rc, err[-1500:]))
        allrecs[p["name"]] = recs

    vlib.pmap(run_mod, sorted(mods), nproc=POOL)
    vlib.pmap(run_repo, [p for p in progs if p["cls"] == "repo"], nproc=POOL)

    # ---- 4. records for TLC -------------------------------------------------------------------------------------
    tlc_recs, dropped, crashed = [], [], []
    for p in progs:
        recs = allrecs.get(p["name"], [])
        load = [x for x in recs if x["kind"] == "load"]
        if not load or load[0]["err"]:
            dropped.append((p, (load[0]["err"] if load else "no load record")[:300]))
            continue
        runs = []
        for x in recs:
            if x["kind"] != "taint":
                continue
            ok = 0 if x["panic"] else 1
            if x["panic"]:
                crashed.append((p, x["cfg"], x["panic"][:1500]))
            runs.append({"vec": byname[x["cfg"]], "flows": x["flows"], "ok": ok, "err": (x["err"] or "")[:200]})
        bt = [{"od": int(x["cfg"][-1]), "traces": x["traces"], "ok": 0 if x["panic"] else 1} for x in recs if x["kind"] == "backtrace"]
        if len(runs) != len(vectors):
            raise Inconclusive("optrun produced %d of %d runs for %s" % (len(runs), len(vectors), p["name"]))
        p["runs"], p["bt"] = runs, bt
        tlc_recs.append({"prog": p["name"], "runs": [{"vec": r_["vec"], "flows": r_["flows"], "ok": r_["ok"]} for r_ in runs], "bt": bt})
    generated_dropped = [d for d in dropped if d[0]["cls"] != "repo"]
    if generated_dropped:
        raise Inconclusive("generated program did not load: %s: %s" % (generated_dropped[0][0]["desc"], generated_dropped[0][1]))
    if len(tlc_recs) < 10:
        raise Inconclusive("only %d programs produced results" % len(tlc_recs))
    ctx.traces += sum(len(p.get("runs", [])) + len(p.get("bt", [])) for p in progs)

    # ---- 5. TLC decides -------------------------------------------------------------------------------------------
    r = ctx.tlc_must_pass("Options", data={"results.ndjson": vlib.ndjson(tlc_recs)}, subdir="options", timeout=2400,
                          deadlock=False, xmx="6g")
    fp = os.path.join(r.dir, "options_fail.ndjson")
    if "OPTIONS_RESULT" not in r.out or not os.path.exists(fp):
        raise Inconclusive("Options.tla did not reach its postcondition:\n" + r.out[-3000:])
    fails = vlib.read_ndjson(fp)
    import re
    m = re.search(r'<<"OPTIONS_RESULT", (\d+), (\d+), (\d+), (\d+), (\d+), (\d+)>>', r.out)
    np_, n2, nlim, ntr, nbt, nf = map(int, m.groups())
    if n2 < np_ or nlim == 0 or ntr == 0:
        raise Inconclusive("vacuous run: %d programs, %d with two unlimited runs, %d limited runs with a non-empty unlimited "
                           "result, %d truncating runs" % (np_, n2, nlim, ntr))

    # ---- 6. verdicts ------------------------------------------------------------------------------------------------
    pby = {p["name"]: p for p in progs}
    byprog = {}
    for f in fails:
        byprog.setdefault((f["prog"], f["what"]), []).append(f)

    def files_of(p, fl):
        fs = {"input.json": json.dumps(p["desc"], indent=1), "failures.json": json.dumps(fl, indent=1)}
        if p["cls"] != "repo":
            for rootd, _, fns in os.walk(p["dir"]):
                for fn in fns:
                    if fn.endswith(".go") and fn != "roles_native.go":
                        fs[os.path.relpath(os.path.join(rootd, fn), p["dir"])] = open(os.path.join(rootd, fn)).read()
            v0 = fl[0]["vec"]
            name = optlib.vec_name(v0) if v0["code"] or fl[0]["what"] != "neutral-bt" else "bt%d" % v0["od"]
            cp = os.path.join(p["mod"], name + ".yaml")
            if os.path.exists(cp):
                fs["config.yaml"] = open(cp).read()
        fs["results.json"] = json.dumps([{"vec": r_["vec"], "flows": r_["flows"], "err": r_["err"]} for r_ in p.get("runs", [])], indent=1)
        return fs

    def constructs(p):
        if "kind" in p["desc"]:
            return {"kind:" + p["desc"]["kind"]}
        if "chain" in p["desc"]:
            return {"step:" + s for s, _ in p["desc"]["chain"]}
        return {"repo:" + p["desc"]["repo_testdata"]}

    def known_for(p, what, fl):
        """attribution: the entry names the failing construct, the relation, and the laziness classes of the failing
        vectors; every failing vector must be in one of these classes and must only LOSE pairs"""
        classes = {lazy_class(f["vec"], p["multi"]) for f in fl}
        for e in kf:
            if e.get("status") != "known":
                continue
            mt = e.get("match", {})
            if mt.get("what") and what not in mt["what"]:
                continue
            if "constructs_any" in mt and not (set(mt["constructs_any"]) & constructs(p)):
                continue
            if not classes <= set(mt.get("lazy_classes", [])):
                continue
            if mt.get("only_missing", True) and any(f["extra"] for f in fl):
                continue
            if mt.get("missing_all_contain") and not all(mt["missing_all_contain"] in x for f in fl for x in f["missing"]):
                continue
            return e
        return None

    seen_known = {}
    nviol = 0
    for (pn, what), fl in sorted(byprog.items()):
        p = pby[pn]
        e = known_for(p, what, fl)
        if e:
            seen_known.setdefault(e["id"], []).append((p, what, fl))
            continue
        nviol += 1
        if nviol > 25:
            continue
        f0 = fl[0]
        classes = sorted({lazy_class(f["vec"], p["multi"]) for f in fl})
        if what == "neutral":
            msg = ("taint analysis reports a different set of (source, sink) pairs under option vectors that differ only in "
                   "neutral options: %d of %d unlimited runs differ from the reference run; e.g. vector %s loses %s and "
                   "adds %s; classes of the differing vectors: %s" % (
                       len(fl), sum(1 for r_ in p["runs"] if r_["vec"]["ma"] == 0), f0["vec"], f0["missing"][:4], f0["extra"][:4], classes))
        elif what == "neutral-bt":
            msg = ("backtrace reports different (origin, entry point) pairs eager vs on demand: on-demand=%s loses %s and adds %s" % (
                f0["vec"]["od"], f0["missing"][:4], f0["extra"][:4]))
        else:
            msg = {"alarm-subset": "with max-alarms = %d the result contains pairs that no unlimited run reports: %s",
                   "alarm-count": "with max-alarms = %d more than that many pairs are reported: %s",
                   "alarm-empty": "with max-alarms = %d nothing is reported although every unlimited run reports pairs%s"}[what] % (
                       f0["vec"]["ma"], f0["extra"][:5] if what != "alarm-empty" else "") + " (vector %s)" % f0["vec"]
        ctx.violation("C05 on program %s: %s" % (json.dumps(p["desc"])[:300], msg), files_of(p, fl),
                      key="C05/%s/%s" % (what, json.dumps(p["desc"], sort_keys=True)))
    for e in kf:
        if e.get("status") == "known" and e["id"] in seen_known:
            hits = seen_known[e["id"]]
            ex = next((h for h in hits if any(pe is e and pj.get("kind") == h[0]["desc"].get("kind") for pe, pj in pinned)), hits[0])
            ctx.known(e["id"], "%s (%d programs, e.g. %s: vector %s loses %s)" % (
                e["what"], len({h[0]["name"] for h in hits}), json.dumps(ex[0]["desc"])[:200], ex[2][0]["vec"], ex[2][0]["missing"][:3]))
        if e.get("status") == "fixed":
            for pe, pj in pinned:
                if pe is not e:
                    continue
                for (pn, what), fl in byprog.items():
                    if pby[pn]["desc"].get("kind") == pj.get("kind") and pj.get("kind") or pby[pn]["desc"].get("chain") == pj.get("chain") and pj.get("chain"):
                        ctx.violation("pinned input of the FIXED finding %s fails again (%s)" % (e["id"], what), files_of(pby[pn], fl),
                                      key="C05/fixed/" + e["id"])
    for p, cfgn, st in crashed[:3]:
        print("NOTE (C07 territory) taint analysis panicked on %s under %s: %s" % (p["desc"], cfgn, st[:200].replace("\n", " ")))
    for p, why in dropped[:5]:
        print("NOTE repository program %s not analysed: %s" % (p["desc"], why))

    nonempty = sum(1 for p in progs if any(r_["flows"] for r_ in p.get("runs", [])))
    mid = [p for p in progs if p["cls"] == "kind" and p.get("runs")][0]
    ctx.sample({"program": mid["desc"], "vectors": len(vectors), "first_vector": vectors[0],
                "result_under_first_vector": mid["runs"][0]["flows"]})
    ctx.sample({"vector": vectors[len(vectors) // 2], "config.yaml": open(os.path.join(mid["mod"], vnames[len(vectors) // 2] + ".yaml")).read()[:600]})
    ctx.extra.update({
        "programs": len(tlc_recs), "kind_programs": len(kinds), "chain_programs": len(chains), "repo_programs": [p["desc"]["repo_testdata"] for p in progs if p["cls"] == "repo" and p.get("runs")],
        "vectors": len(vectors), "unlimited_vectors": sum(1 for v in vectors if v["ma"] == 0), "programs_with_flows": nonempty,
        "limited_runs_with_nonempty_unlimited_result": nlim, "truncating_runs": ntr, "programs_with_two_backward_runs": nbt,
        "failing_program_relations": len(byprog), "known_clusters": {k: len(v) for k, v in seen_known.items()},
        "runs_crashed": len(crashed), "programs_dropped": len(dropped),
    })
    ctx.assumptions += [
        "every option other than max-alarms is treated as neutral (summarize-on-demand, pkg-filter, report-*, log-level, reports-dir)",
        "pkg-filter classes: none / a regex matching every package of the program / only the main package / no package",
        "weakest reading of AlarmBound: R_k is compared with the union of the unlimited results; non-emptiness is demanded "
        "only when every unlimited result is non-empty",
        "a run that panics is left out (it is C07's subject) and counted in runs_crashed",
    ]
    ctx.finish_args = dict(exhaustive=False, evaluations=len(tlc_recs) * len(vectors), distinct=len(tlc_recs),
                           rule="one case = one program x one option vector of the TLC-constructed covering set")
