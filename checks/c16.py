"""C16 -- defer analysis computes exactly the possible defer stacks (DESIGN.md section 4, C16).

Pipeline: TLC(CfgSpace) -> function bodies -> Go package -> real defers.AnalyzeFunction on the
real SSA CFGs (harness/cmd/defersdump) -> TLC(Defers) explores every CFG path of every function
and compares with the real result (Exact / Complete / BoundedOK) -> native execution of the same
functions under all decision scripts (every natively observed run order of deferred calls must be
the reverse of a stack reported at that exit).
"""
import json
import os
import random
import subprocess

import vlib
from vlib import Inconclusive

ROLES_STUB = '''//go:build !native

package main

func oracle() bool { return false }
func rec(int)      {}
func mark(int)     {}
func tick()        {}
func main() {
	for _, f := range table {
		f()
	}
}
'''

ROLES_NATIVE = '''//go:build native

package main

import (
	"encoding/json"
	"fmt"
	"os"
	"strconv"
)

var script []bool
var pos int
var log []int
var lastMark int
var ticks int

type diverge struct{}

func oracle() bool {
	if pos < len(script) {
		pos++
		return script[pos-1]
	}
	return false
}
func rec(id int)  { log = append(log, id) }
func mark(id int) { lastMark = id; log = log[:0] }
func tick() {
	ticks++
	if ticks > 40 {
		panic(diverge{})
	}
}

type run struct {
	Fn       int   `json:"fn"`
	Mark     int   `json:"mark"`
	Seq      []int `json:"seq"`
	Panicked bool  `json:"panicked"`
	Script   string `json:"script"`
}

func one(i int, bits int, n int) (r run, ok bool) {
	script = script[:0]
	s := ""
	for k := 0; k < n; k++ {
		b := bits&(1<<k) != 0
		script = append(script, b)
		if b {
			s += "1"
		} else {
			s += "0"
		}
	}
	pos, ticks, lastMark = 0, 0, 0
	log = log[:0]
	ok = true
	r.Fn, r.Script = i, s
	func() {
		defer func() {
			if e := recover(); e != nil {
				r.Panicked = true
				if _, d := e.(diverge); d {
					ok = false
				}
			}
		}()
		table[i]()
	}()
	r.Mark = lastMark
	r.Seq = append([]int{}, log...)
	return
}

func main() {
	n := 6
	if len(os.Args) > 1 {
		n, _ = strconv.Atoi(os.Args[1])
	}
	enc := json.NewEncoder(os.Stdout)
	for i := range table {
		seen := map[string]bool{}
		for bits := 0; bits < 1<<n; bits++ {
			r, ok := one(i, bits, n)
			if !ok {
				continue
			}
			k := fmt.Sprint(r.Mark, r.Seq, r.Panicked)
			if seen[k] {
				continue
			}
			seen[k] = true
			enc.Encode(r)
		}
	}
}
'''

STDPROG = '''package main

import (
	_ "archive/tar"
	_ "archive/zip"
	_ "bufio"
	_ "bytes"
	_ "compress/gzip"
	_ "context"
	_ "crypto/tls"
	_ "database/sql"
	_ "encoding/json"
	_ "encoding/xml"
	_ "fmt"
	_ "go/parser"
	_ "html/template"
	_ "io"
	_ "log"
	_ "net/http"
	_ "os"
	_ "os/exec"
	_ "path/filepath"
	_ "reflect"
	_ "regexp"
	_ "sort"
	_ "strings"
	_ "sync"
	_ "testing"
	_ "text/template"
	_ "time"
)

func main() {}
'''


def render(bodies):
    """bodies: list of token lists.  Returns (source, meta) where meta[k] = {name, toks, variant}."""
    lines = ["package main", ""]
    meta = []

    def emit(s):
        lines.append(s)
        return len(lines)  # 1-based line number of the emitted line

    for n, toks in enumerate(bodies):
        for variant in ("plain", "named"):
            name = ("f%d" if variant == "plain" else "g%d") % n
            emit("func %s() %s{" % (name, "(res int) " if variant == "named" else ""))
            for t in toks:
                ln = len(lines) + 1
                if t == "d":
                    emit("defer rec(%d)" % ln)
                elif t == "i":
                    emit("if oracle() {")
                elif t == "e":
                    emit("} else {")
                elif t == "x":
                    emit("}")
                elif t == "f":
                    emit("for oracle() {")
                elif t == "F":
                    emit("for { tick()")
                elif t == "b":
                    emit("break")
                elif t == "c":
                    emit("continue")
                elif t == "r":
                    emit("mark(%d); return" % ln)
                elif t == "p":
                    emit('panic("p")')
                elif t == "w":
                    emit("switch {")
                elif t == "k":
                    emit("case oracle():")
                elif t == "l":
                    emit("L1:")
                elif t == "g":
                    emit("if oracle() { goto L1 }")
                else:
                    raise Inconclusive("unknown token %r" % t)
            ln = len(lines) + 1
            emit("mark(%d); return" % ln if variant == "named" else "mark(%d)" % ln)
            emit("} // end %s" % name)
            meta.append({"name": name, "toks": "".join(toks), "variant": variant})
    emit("")
    emit("var table = []func(){")
    for m in meta:
        if m["variant"] == "plain":
            emit("\t%s," % m["name"])
        else:
            emit("\tfunc() { %s() }," % m["name"])
    emit("}")
    return "\n".join(lines) + "\n", meta


def write_pkg(d, src):
    os.makedirs(d, exist_ok=True)
    with open(os.path.join(d, "go.mod"), "w") as fh:
        fh.write("module cfgprog\n\ngo 1.22\n")
    with open(os.path.join(d, "main.go"), "w") as fh:
        fh.write(src)
    with open(os.path.join(d, "roles_stub.go"), "w") as fh:
        fh.write(ROLES_STUB)
    with open(os.path.join(d, "roles_native.go"), "w") as fh:
        fh.write(ROLES_NATIVE)


def tlc_defers(ctx, funcs, tag, timeout):
    """run Defers.tla over a batch of dumped functions; returns list of failure records"""
    if not funcs:
        return []
    r = ctx.tlc_must_pass("Defers", data={"funcs.ndjson": vlib.ndjson(funcs)}, subdir="defers-" + tag,
                          timeout=timeout, deadlock=False)
    fp = os.path.join(r.dir, "defers_fail.ndjson")
    if "DEFERS_RESULT" not in r.out or not os.path.exists(fp):
        raise Inconclusive("Defers.tla did not reach its postcondition:\n" + r.out[-3000:])
    return vlib.read_ndjson(fp)


def run(ctx):
    thorough = ctx.tier == "thorough"
    rnd = random.Random(ctx.seed)
    bins = ctx.build(["defersdump"])

    # ---- 1. program space from TLC ------------------------------------------------------
    K = 6 if thorough else 5
    ALL = '{"d","i","e","x","f","F","b","c","r","p","w","k","l","g"}'
    cfgtxt = ("SPECIFICATION Spec\nCONSTANTS K = %d\n MaxDepth = %d\n MaxDefer = 3\n Alphabet = %s\n"
              "CONSTRAINT Collect\nPOSTCONDITION Post\nCHECK_DEADLOCK FALSE\n" % (K, 3 if thorough else 2, ALL))
    r = ctx.tlc_must_pass("CfgSpace", cfg="CfgSpaceRun.cfg", data={"CfgSpaceRun.cfg": cfgtxt}, timeout=1500,
                          deadlock=False, xmx="8g")
    bodies = [x["t"] for x in vlib.read_ndjson(os.path.join(r.dir, "cfgs.ndjson"))]
    exhaustive_n = len(bodies)
    # longer bodies by seeded simulation of the same generator spec
    simcfg = ("SPECIFICATION Spec\nCONSTANTS K = 12\n MaxDepth = 3\n MaxDefer = 6\n Alphabet = %s\n"
              "CONSTRAINT Collect\nPOSTCONDITION Post\nCHECK_DEADLOCK FALSE\n" % ALL)
    # second exhaustive configuration: long runs of defers over the branching alphabet only (wide stacks)
    widecfg = ("SPECIFICATION Spec\nCONSTANTS K = %d\n MaxDepth = 1\n MaxDefer = 8\n Alphabet = {\"d\",\"i\",\"e\",\"x\",\"F\",\"b\"}\n"
               "CONSTRAINT Collect\nPOSTCONDITION Post\nCHECK_DEADLOCK FALSE\n" % (10 if thorough else 9))
    rw = ctx.tlc_must_pass("CfgSpace", cfg="CfgSpaceWide.cfg", data={"CfgSpaceWide.cfg": widecfg}, timeout=1500,
                           deadlock=False, xmx="8g")
    wide = [x["t"] for x in vlib.read_ndjson(os.path.join(rw.dir, "cfgs.ndjson"))]
    wide = [t for t in wide if t.count("d") >= 4]
    wide.sort()
    if not thorough:
        random.Random(ctx.seed + 5).shuffle(wide)
        wide = sorted(wide[:700])
    nsim = 3000 if thorough else 400
    r2 = ctx.tlc_must_pass("CfgSpace", cfg="CfgSpaceSim.cfg", data={"CfgSpaceSim.cfg": simcfg}, timeout=900,
                           simulate="num=%d" % nsim, depth=13, seed=ctx.seed, deadlock=False)
    sim = [x["t"] for x in vlib.read_ndjson(os.path.join(r2.dir, "cfgs.ndjson"))]
    sim = [t for t in sim if len(t) > K]
    sim.sort()
    rnd.shuffle(sim)
    sim = sim[: (6000 if thorough else 600)]
    bodies += sim
    bodies += [t for t in wide if t not in bodies]
    if exhaustive_n < 100:
        raise Inconclusive("CfgSpace produced only %d bodies" % exhaustive_n)

    # ---- 2. render, analyse with the real code -------------------------------------------
    CH = 1500
    chunks = [bodies[i:i + CH] for i in range(0, len(bodies), CH)]
    allfuncs = []  # (chunk index, func record)
    nodefer = 0
    metas = []
    gdirs = []
    for ci, ch in enumerate(chunks):
        gdir = os.path.join(ctx.work, "gen%d" % ci)
        src, meta = render(ch)
        write_pkg(gdir, src)
        gdirs.append(gdir)
        metas.append(meta)

    def dump(ci):
        out = os.path.join(ctx.work, "funcs%d.ndjson" % ci)
        p = vlib.sh([bins["defersdump"], "-dir", gdirs[ci], "-only", "cfgprog", "-out", out], env=vlib.goenv(),
                    check=False, timeout=1200)
        if p.returncode != 0:
            raise Inconclusive("defersdump failed: " + p.stdout[-3000:])
        return vlib.read_ndjson(out)

    dumps = vlib.pmap(dump, range(len(chunks)), nproc=8)
    for ci, recs in enumerate(dumps):
        want = {m["name"] for m in metas[ci]}
        got = {r_["name"].split(".")[-1] for r_ in recs}
        if len(got & want) < len(want) // 10:
            # a chunk of bodies whose defer statements are all unreachable (the enumeration is sorted) is legitimate;
            # a package that does not compile is not
            q = vlib.sh(["go", "build", "./..."], cwd=gdirs[ci], env=vlib.goenv(), check=False, timeout=600)
            if q.returncode != 0:
                raise Inconclusive("generated package of chunk %d does not compile (defersdump lost %s): %s" % (
                    ci, sorted(want - got)[:5], q.stdout[-1500:]))
        nodefer += len(want - got)  # every defer statement of the body is unreachable: nothing to check
        for r_ in recs:
            r_["chunk"] = ci
            allfuncs.append(r_)

    # std library functions (real CFGs)
    sdir = os.path.join(ctx.work, "stdprog")
    os.makedirs(sdir)
    open(os.path.join(sdir, "go.mod"), "w").write("module stdprog\n\ngo 1.22\n")
    open(os.path.join(sdir, "main.go"), "w").write(STDPROG)
    sout = os.path.join(ctx.work, "stdfuncs.ndjson")
    p = vlib.sh([bins["defersdump"], "-dir", sdir, "-out", sout, "-maxstacks", "300"], env=vlib.goenv(), check=False,
                timeout=1200)
    if p.returncode != 0:
        raise Inconclusive("defersdump(std) failed: " + p.stdout[-3000:])
    stdfuncs = vlib.read_ndjson(sout)
    if not thorough:
        stdfuncs.sort(key=lambda x: x["name"])
        rnd.shuffle(stdfuncs)
        stdfuncs = stdfuncs[:1500]
    for r_ in stdfuncs:
        r_["chunk"] = -1

    # ---- 3. TLC: all CFG paths of all functions vs. the real result -------------------------
    everything = allfuncs + stdfuncs
    NB = 12
    batches = [everything[i::NB] for i in range(NB)]

    def runbatch(bi):
        return tlc_defers(ctx, batches[bi], "b%d" % bi, 2400 if thorough else 900)

    results = vlib.pmap(runbatch, range(NB), nproc=8)
    fails = [f for fl in results for f in fl]

    # ---- 4. native execution of the generated functions -------------------------------------
    natobs = {}  # (chunk, fn name) -> list of runs

    def native(ci):
        exe = os.path.join(gdirs[ci], "prog")
        p = vlib.sh(["go", "build", "-tags", "native", "-o", exe, "."], cwd=gdirs[ci], env=vlib.goenv(), check=False,
                    timeout=900)
        if p.returncode != 0:
            raise Inconclusive("native build failed: " + p.stdout[-3000:])
        q = subprocess.run([exe, "6"], stdout=subprocess.PIPE, stderr=subprocess.PIPE, text=True, timeout=900)
        if q.returncode != 0:
            raise Inconclusive("native run failed: " + q.stderr[-2000:])
        return [json.loads(l) for l in q.stdout.splitlines() if l.strip()]

    nat = vlib.pmap(native, range(len(chunks)), nproc=8)
    by = {}
    for r_ in allfuncs:
        by[(r_["chunk"], r_["name"].split(".")[-1])] = r_
    nruns = 0
    nat_fail = []
    for ci, runs in enumerate(nat):
        for rn in runs:
            m = metas[ci][rn["fn"]]
            fr = by.get((ci, m["name"]))
            if fr is None:
                continue
            nruns += 1
            if rn["panicked"] or not fr["bounded"]:
                continue
            # line of each defer instr
            line_of = {}
            sets_by_mark = {}
            for blk in fr["blocks"]:
                for ins in blk["code"]:
                    if ins["k"] == "defer":
                        line_of[(ins["b"], ins["i"])] = ins["line"]
            for blk in fr["blocks"]:
                for ins in blk["code"]:
                    if ins["k"] == "rundefers":
                        for s in fr["sets"]:
                            if s["b"] == ins["b"] and s["i"] == ins["i"]:
                                sets_by_mark.setdefault(ins["line"], []).extend(
                                    [[line_of[(e["b"], e["i"])] for e in st] for st in s["stacks"]])
            want = list(reversed(rn["seq"]))
            if want not in sets_by_mark.get(rn["mark"], []):
                nat_fail.append((ci, m, rn, sets_by_mark.get(rn["mark"], [])))
    ctx.traces += nruns

    # ---- 5. verdicts --------------------------------------------------------------------------
    def src_of(ci, name):
        if ci < 0:
            return "(standard library function %s)" % name
        src = open(os.path.join(gdirs[ci], "main.go")).read()
        k = src.find("func %s()" % name.split(".")[-1])
        return src[k: src.find("} // end", k) + 1]

    seen = set()
    for fl in fails:
        key = (fl["name"], fl["kind"])
        if key in seen:
            continue
        seen.add(key)
        fr = next(x for x in everything if x["name"] == fl["name"])
        what = ("defers.AnalyzeFunction on %s: %s -- stack %s at RunDefers(block %d, ins %d); reported bounded=%s, "
                "a defer on a CFG cycle=%s" % (fl["name"], {"missing": "a CFG path produces a defer stack that is not reported",
                                                         "extra": "a reported defer stack is produced by no CFG path",
                                                         "bounded": "boundedness verdict disagrees with 'some defer lies on a cycle'"}[fl["kind"]],
                                                fl["stack"], fl["rb"], fl["ri"], fl["realbounded"], not fl["specbounded"]))
        ctx.violation(what, {"function.go": src_of(fr["chunk"], fl["name"]), "failure.json": fl, "dump.json": fr},
                      key="%s/%s" % key)
    for ci, m, rn, have in nat_fail[:20]:
        what = ("native run of %s (body %s, script %s) ran deferred calls in order %s at exit mark %d, whose reverse is "
                "not among the stacks reported there %s" % (m["name"], m["toks"], rn["script"], rn["seq"], rn["mark"], have))
        ctx.violation(what, {"function.go": src_of(ci, m["name"]), "run.json": rn}, key="native/" + m["toks"] + m["variant"])

    nunb = sum(1 for x in everything if not x["bounded"])
    ctx.sample({"body": "".join(bodies[len(bodies) // 3]), "function": src_of(0, metas[0][len(metas[0]) // 3]["name"])})
    if stdfuncs:
        s0 = stdfuncs[0]
        ctx.sample({"std_function": s0["name"], "bounded": s0["bounded"], "sets": s0["sets"][:2]})
    ctx.extra.update({
        "programs": len(bodies), "functions_checked": len(everything), "generated_functions": len(allfuncs),
        "std_functions": len(stdfuncs), "exhaustive_bodies_K": K, "exhaustive_bodies": exhaustive_n,
        "simulated_bodies": len(sim), "wide_defer_bodies": len(wide), "reported_unbounded": nunb, "bodies_without_reachable_defer": nodefer, "native_runs": nruns,
        "explanation": "states = (function, block, instruction, defer stack) points of all CFG paths explored by TLC "
                       "over real SSA CFGs + states of the generator spec",
    })
    ctx.assumptions += [
        "x/tools SSA CFG (blocks, successors, Defer/RunDefers placement) is the control-flow semantics of the function; "
        "checked natively for the generated functions (order of deferred calls at each exit under all 6-bit decision scripts)",
        "functions whose defers are unbounded are only checked for the bounded/unbounded verdict",
    ]
    ctx.finish_args = dict(exhaustive=True, evaluations=len(everything), distinct=len(everything),
                           rule="one case = one function (real SSA CFG); all structured bodies of <= %d tokens "
                                "(TLC-enumerated) in two variants + simulated longer bodies + std functions with defers" % K)
