// std-callback corpus, program B: closures with captured variables and method values handed to standard-library higher-order functions and user types
// handed to standard-library code through interfaces (C12 ExecOK, C18 ReachOK).  The oracle is the native run:
// every function whose enter() is logged was executed.
//
//
//
//
//
//
//
//
//
//
//
//
//
//
//
//
//
//
//
//
//
//
//
//
//
//
//
//
//
//
//
//
//
//
//
//
//
package main

import (
	"context"
	"runtime/pprof"
	"runtime/trace"
	"slices"
	"sort"
	"strings"
	"sync"
)

type counter struct{ n int }

func (c *counter) bump() {
	enter()
	c.n++
}

func (c *counter) isSep(r rune) bool {
	enter()
	c.n++
	return r == ','
}

func (c *counter) cmp(a, b string) int {
	enter()
	c.n++
	return strings.Compare(a, b)
}

func (c *counter) labelled(ctx context.Context) {
	enter()
	c.n++
}

func mkLess(xs []string, c *counter) func(i, j int) bool {
	enter()
	return func(i, j int) bool {
		enter()
		c.n++
		return xs[i] < xs[j]
	}
}

func main() {
	enter()
	c := &counter{}
	xs := []string{"bb", "a", "ccc"}
	sort.Slice(xs, mkLess(xs, c))
	var once sync.Once
	once.Do(c.bump)
	_ = strings.FieldsFunc("a,b", c.isSep)
	slices.SortFunc(xs, c.cmp)
	pprof.Do(context.Background(), pprof.Labels("k", "v"), c.labelled)
	seen := 0
	trace.WithRegion(context.Background(), "r", func() {
		enter()
		seen++
	})
	var wg sync.WaitGroup
	wg.Add(1)
	go func() {
		enter()
		defer wg.Done()
		once.Do(c.bump)
	}()
	wg.Wait()
	_ = seen
}

func resetGlobals() {}
