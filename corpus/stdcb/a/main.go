// std-callback corpus, program A: user functions handed to standard-library higher-order functions and user types
// handed to standard-library code through interfaces (C12 ExecOK, C18 ReachOK).  The oracle is the native run:
// every function whose enter() is logged was executed.
//
//
//
//
//
//
//
//
//
//
//
//
//
//
//
//
//
//
//
//
//
//
//
//
//
//
//
//
//
//
//
//
//
//
//
//
//
package main

import (
	"bufio"
	"bytes"
	"context"
	"io"
	"runtime/pprof"
	"runtime/trace"
	"slices"
	"sort"
	"strings"
	"sync"
)

type byLen []string

func (b byLen) Len() int {
	enter()
	return len(b)
}
func (b byLen) Less(i, j int) bool {
	enter()
	return len(b[i]) < len(b[j])
}
func (b byLen) Swap(i, j int) {
	enter()
	b[i], b[j] = b[j], b[i]
}

type sinkWriter struct{ n int }

func (w *sinkWriter) Write(p []byte) (int, error) {
	enter()
	w.n += len(p)
	return len(p), nil
}

func lessFn(xs []string) func(i, j int) bool {
	enter()
	return func(i, j int) bool {
		enter()
		return xs[i] < xs[j]
	}
}

func onceFn() {
	enter()
}

func mapRune(r rune) rune {
	enter()
	return r + 1
}

func isSep(r rune) bool {
	enter()
	return r == ','
}

func cmpStr(a, b string) int {
	enter()
	return strings.Compare(a, b)
}

func hasX(s string) bool {
	enter()
	return s == "x"
}

func labelled(ctx context.Context) {
	enter()
}

func region() {
	enter()
}

func splitAll(data []byte, atEOF bool) (int, []byte, error) {
	enter()
	if len(data) == 0 {
		return 0, nil, nil
	}
	return len(data), data, nil
}

func newBuf() any {
	enter()
	return new(bytes.Buffer)
}

func main() {
	enter()
	xs := []string{"bb", "a", "ccc"}
	sort.Slice(xs, lessFn(xs))
	sort.Sort(byLen(xs))
	var once sync.Once
	once.Do(onceFn)
	_ = strings.Map(mapRune, "abc")
	_ = strings.FieldsFunc("a,b", isSep)
	_ = bytes.IndexFunc([]byte("a,b"), isSep)
	slices.SortFunc(xs, cmpStr)
	_ = slices.IndexFunc(xs, hasX)
	pprof.Do(context.Background(), pprof.Labels("k", "v"), labelled)
	trace.WithRegion(context.Background(), "r", region)
	sc := bufio.NewScanner(strings.NewReader("abc"))
	sc.Split(splitAll)
	sc.Scan()
	pool := sync.Pool{New: newBuf}
	_ = pool.Get()
	w := &sinkWriter{}
	_, _ = io.Copy(w, strings.NewReader("data"))
	_, _ = io.WriteString(w, "more")
	bw := bufio.NewWriter(w)
	_, _ = bw.WriteString("buffered")
	_ = bw.Flush()
}

func resetGlobals() {}
