// Pinned input of the known finding C08/dup-arg.
// The same SSA value is passed at two argument positions of one call: CallNode.FindArg(value) returns the node of the
// FIRST position, so the node of the second position never receives an edge (the flow into parameter b is lost).
package main

func source() string { return "tainted" }
func sink(s string)  {}

func second(a, b string) { sink(b) }

func caller(x string) { second(x, x) }

func main() { caller(source()) }
