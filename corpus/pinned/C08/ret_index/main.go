// Pinned input of the known finding C08/ret-index.
// three has ONE return instruction and THREE results: addReturnEdge's guard `tupleIndex > len(g.Returns)` compares the
// tuple index with the number of return INSTRUCTIONS, so the edge parameter c -> return value #2 is never added.
package main

func source() string { return "tainted" }
func sink(s string)  {}

func three(a, b, c string) (string, string, string) { return a, b, c }

func main() {
	_, _, z := three("a", "b", source())
	sink(z)
}
