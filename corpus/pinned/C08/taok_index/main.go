// Pinned input of the known finding C08/taok-index.
// Result #1 of a call flows through a comma-ok type assertion: DoExtract applies the tuple-index filter of call tuples
// to the (value, ok) tuple of the assertion, Extract #0 of it only lets marks with tuple index 0 (or none) through, so
// the mark of result #1 of pair() is dropped.
package main

func source() string { return "tainted" }
func sink(s string)  {}

func pair() (int, interface{}) { return 1, source() }

func main() {
	_, v := pair()
	s, ok := v.(string)
	if ok {
		sink(s)
	}
}
