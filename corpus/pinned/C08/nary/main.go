// Pinned input of the known finding C08/nary (same defect as C01 builtin-minmax-3ops).
// min / max with other than two operands: doBuiltinCall returns false without transferring anything while
// isHandledBuiltinCall is true, so no call node exists either: the chain parameter -> max(...) -> call argument is lost.
package main

func source() string { return "tainted" }
func sink(s string)  {}

func pick(a string) { m := max(a, "x", "y"); sink(m) }

func main() { pick(source()) }
