// Benign twins of the pinned inputs of C08: the closest constructs that are not affected.
package main

func source() string { return "tainted" }
func sink(s string)  {}

// ret-index twin: two results, one return instruction (index 1 <= 1)
func two(a, b string) (string, string) { return a, b }

// ret-index twin: three results but three return instructions
func threeR(a, b, c string) (string, string, string) {
	if a == "" {
		return a, b, c
	}
	if b == "" {
		return b, c, a
	}
	return c, a, b
}

// dup-arg twin: different values at the two positions
func second(a, b string) { sink(b) }
func caller(x, y string) { second(x, y) }

// taok-index twin: result #0 through the comma-ok assertion
func pair0() (interface{}, int) { return source(), 1 }
func taok0() {
	v, _ := pair0()
	s, ok := v.(string)
	if ok {
		sink(s)
	}
}

// nary twin: two operands
func pick2(a string) { m := max(a, "x"); sink(m) }

func main() {
	_, y := two("a", source())
	sink(y)
	_, _, z := threeR("a", "b", source())
	sink(z)
	caller("k", source())
	taok0()
	pick2(source())
}
