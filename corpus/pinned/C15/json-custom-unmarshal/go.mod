module c15pinned

go 1.22
