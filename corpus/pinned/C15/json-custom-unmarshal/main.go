// Pinned input of the known finding C15/json-custom-marshaler-fresh-tmp-node.
//
// The transfer function of a json.Unmarshal / json.Marshal call whose argument has a pointer-receiver
// UnmarshalJSON / MarshalJSON method (escape.go invokeMethodDirectly) allocates a brand-new node "tmp" each time it
// is applied, so applying it twice to the same input graph gives two different output graphs.  With the call inside
// a loop (function loop below, NOT analysed by the check: see corpus/pinned/C15/README) the block-level fixpoint is
// never reached: the graph grows by one tmp node per iteration until summary-maximum-size (default 100000 edges).
package main

import "encoding/json"

type Node struct{ next *Node }

type S struct{ a *Node }

func (s *S) UnmarshalJSON(data []byte) error {
	s.a = &Node{}
	return nil
}

func (s *S) MarshalJSON() ([]byte, error) {
	return []byte("{}"), nil
}

func once() *S {
	x := &S{}
	json.Unmarshal([]byte("{}"), x)
	return x
}

func back(x *S) []byte {
	b, _ := json.Marshal(x)
	return b
}

func main() { back(once()) }
