// Benign twin of tuple_same_node: the two results of one call reach DIFFERENT nodes.
package main

func source() string { return "tainted" }

func sink(s string) {}

func two() (string, string) { return source(), "b" }

func main() {
	x, y := two()
	sink(x)
	sink(y)
}
