// Pinned input of the known finding C17/tuple-index-in-edge.
// Two results of ONE call reach the SAME node (the argument of sink): the call node's Out() map holds one
// EdgeInfo per tuple index (0 and 1) for that argument, the argument's In() map holds a single EdgeInfo for the
// call node (addInEdge: node.in[source] = path), i.e. one of the two indices is lost on the incoming side.
package main

func source() string { return "tainted" }

func sink(s string) {}

func two() (string, string) { return source(), "b" }

func main() {
	x, y := two()
	sink(x + y)
}
