// Pinned input of the known finding C17/orphan-callee-summary (backtrace, summarize-on-demand).
// g is never assigned, so the pointer analysis has no callee for g.M(s) and A.M (a run-time type's method) is not reachable: the intra-procedural
// pass creates no summary for it, BuildGraph leaves the call node of g.M (callee A.M, resolved through the
// implementations-by-type table) unlinked.  When the backward visitor reaches the pointer argument s of g.M it creates
// a summary for A.M on the fly (backtrace.go, CallNodeArg case: callSite.CalleeSummary = df.NewSummaryGraph(...)),
// builds it, and links the call node to it -- without registering the call site in the summary's Callsites table and
// without inserting the summary in FlowGraph.Summaries.
package main

func source() string { return "tainted" }
func sink(s string)  {}

type I interface{ M(p *string) }

type A struct{}

func (A) M(p *string) { *p = source() }

var g I

var keep interface{} = A{} // makes A a run-time type, so A.M is a candidate callee of g.M

func main() {
	s := new(string)
	g.M(s)
	sink(*s)
}
