module c20pinned

go 1.22
