// Pinned input of the known finding C20/report-summaries-writer-goroutine (see known_findings.d/C20.json).
// Import-free program with enough functions, closures, globals and interface calls for the summary
// worker pool, the on-demand summary construction and the summaries report to have work to do.
package main

type T struct {
	Data  string
	Other string
}

type Sayer interface {
	Say(string) string
}

type A struct{ pre string }
type B struct{ n int }

func (a A) Say(s string) string { return a.pre + s }
func (b B) Say(s string) string {
	if b.n > 0 {
		return s
	}
	return "b"
}

var G string
var GT T

func source() string         { return "tainted" }
func source2() T             { return T{Data: "t", Other: "o"} }
func sink(_ string)          {}
func sink2(_ ...any)         {}
func sanitize(string) string { return "ok" }

func id(s string) string    { return s }
func twice(s string) string { return id(id(s)) }
func pick(c bool, a, b string) string {
	if c {
		return a
	}
	return b
}
func wrap(s string) T           { return T{Data: s} }
func unwrap(t T) string         { return t.Data }
func concat(a, b string) string { return a + b }
func storeG(s string)           { G = s }
func loadG() string             { return G }
func storeGT(s string)          { GT.Data = s }
func loadGT() string            { return GT.Data }

func mk(pre string) func(string) string {
	return func(s string) string { return pre + s }
}

func apply(f func(string) string, s string) string { return f(s) }

func say(x Sayer, s string) string { return x.Say(s) }

func loop(n int, s string) string {
	r := ""
	for i := 0; i < n; i++ {
		r = concat(r, s)
	}
	return r
}

func rec(n int, s string) string {
	if n <= 0 {
		return s
	}
	return rec(n-1, id(s))
}

func viaChan(s string) string {
	c := make(chan string, 1)
	c <- s
	return <-c
}

func viaDefer(s string) (r string) {
	defer func() { r = id(s) }()
	return ""
}

func viaMap(s string) string {
	m := map[string]string{}
	m["k"] = s
	return m["k"]
}

func viaSlice(s string) string {
	x := []string{"a"}
	x = append(x, s)
	return x[1]
}

func test1() { sink(twice(source())) }
func test2() { sink(unwrap(wrap(source()))) }
func test3() { storeG(source()); sink(loadG()) }
func test4() { f := mk(source()); sink(apply(f, "x")) }
func test5() { sink(say(A{pre: source()}, "y")); sink(say(B{n: 1}, "z")) }
func test6() { sink(loop(3, source())); sink(rec(2, source())) }
func test7() { sink(viaChan(source())); sink(viaDefer(source())) }
func test8() { sink(viaMap(source())); sink(viaSlice(source())) }
func test9() { sink(sanitize(source())); sink(pick(true, "a", source())) }
func test10() {
	t := source2()
	sink(t.Data)
	storeGT(t.Other)
	sink2(loadGT(), 1)
}

func main() {
	test1()
	test2()
	test3()
	test4()
	test5()
	test6()
	test7()
	test8()
	test9()
	test10()
}
