package lib

