package inner

