package libf

