package libf

