package sub

