package lib2

