package iox

