package libs

