package libf

