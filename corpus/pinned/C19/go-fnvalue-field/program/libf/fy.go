package libf

