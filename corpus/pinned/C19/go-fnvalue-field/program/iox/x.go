package iox

