package iox

var Oracle func() bool
var Signal func()

