package inner

