package lib

