package sub

var Oracle func() bool
var Signal func()

