package sub

