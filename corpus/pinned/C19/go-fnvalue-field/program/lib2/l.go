package lib2

