//go:build native

package main

import (
	"os"
	"strconv"
	"sync"
)

var mu sync.Mutex
var script = os.Getenv("MP_SCRIPT")
var pos int
var selected, _ = strconv.Atoi(os.Getenv("MP_CASE"))
var done = make(chan struct{}, 16)

func oracle() bool {
	mu.Lock()
	r := false
	if pos < len(script) {
		r = script[pos] == '1'
		pos++
	}
	mu.Unlock()
	return r
}
func signal()        { done <- struct{}{} }
func wait()          { <-done }
func sel(k int) bool { return k == selected }
