package libs

