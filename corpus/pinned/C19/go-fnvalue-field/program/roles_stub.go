//go:build !native

package main

func oracle() bool    { return false }
func signal()         {}
func wait()           {}
func sel(k int) bool  { return k >= 0 }
