package sub

