module iox

go 1.22
