package iox

