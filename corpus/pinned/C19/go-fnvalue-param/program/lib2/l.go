package lib2

