package libs

