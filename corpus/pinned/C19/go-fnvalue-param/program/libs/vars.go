package libs

var Oracle func() bool
var Signal func()

