package main

import (
	"iox"
	inner "launch/lib/inner"
	lib "launch/lib"
	lib2 "launch/lib2"
	libf "launch/libf"
	libs "launch/libs"
	sub "launch/sub"
)

func Entry1() {
	if oracle() {
		panic("boom 1")
	}
	signal()
}
func Launch1(f1 func()) {
	go f1()
	wait()
}

func init() {
	sub.Oracle, sub.Signal = oracle, signal
	lib.Oracle, lib.Signal = oracle, signal
	inner.Oracle, inner.Signal = oracle, signal
	lib2.Oracle, lib2.Signal = oracle, signal
	libs.Oracle, libs.Signal = oracle, signal
	libf.Oracle, libf.Signal = oracle, signal
	iox.Oracle, iox.Signal = oracle, signal
}

func main() {
	if sel(1) {
		Launch1(Entry1)
	}
}
