package lib

