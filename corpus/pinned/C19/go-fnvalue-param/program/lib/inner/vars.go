package inner

var Oracle func() bool
var Signal func()

