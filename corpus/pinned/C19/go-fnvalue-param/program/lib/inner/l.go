package inner

