package libf

