package libf

