package lib

