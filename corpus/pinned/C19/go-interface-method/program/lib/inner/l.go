package inner

