package iox

