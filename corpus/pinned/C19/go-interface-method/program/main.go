package main

import (
	"iox"
	inner "launch/lib/inner"
	lib "launch/lib"
	lib2 "launch/lib2"
	libf "launch/libf"
	libs "launch/libs"
	sub "launch/sub"
)

type T1 struct{ N int }
func (t T1) Run() {
	if oracle() {
		panic("boom 1")
	}
	signal()
}
type I1 interface{ Run() }
func Launch1() {
	var i1 I1 = T1{}
	go i1.Run()
	wait()
}

func init() {
	sub.Oracle, sub.Signal = oracle, signal
	lib.Oracle, lib.Signal = oracle, signal
	inner.Oracle, inner.Signal = oracle, signal
	lib2.Oracle, lib2.Signal = oracle, signal
	libs.Oracle, libs.Signal = oracle, signal
	libf.Oracle, libf.Signal = oracle, signal
	iox.Oracle, iox.Signal = oracle, signal
}

func main() {
	if sel(1) {
		Launch1()
	}
}
