package sub

