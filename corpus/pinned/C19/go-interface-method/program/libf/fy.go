package libf

