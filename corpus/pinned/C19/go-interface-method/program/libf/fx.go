package libf

