package libf

var Oracle func() bool
var Signal func()

