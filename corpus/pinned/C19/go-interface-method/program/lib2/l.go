package lib2

