package libs

