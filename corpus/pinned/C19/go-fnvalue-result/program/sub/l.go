package sub

