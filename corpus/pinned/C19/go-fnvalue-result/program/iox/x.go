package iox

