module launch

go 1.22

require iox v0.0.0

replace iox => ./iox
