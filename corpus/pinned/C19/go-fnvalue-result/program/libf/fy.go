package libf

