package libf

