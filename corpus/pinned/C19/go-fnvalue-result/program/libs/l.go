package libs

