package lib2

