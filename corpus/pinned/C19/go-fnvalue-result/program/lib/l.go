package lib

