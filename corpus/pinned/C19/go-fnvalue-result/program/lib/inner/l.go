package inner

