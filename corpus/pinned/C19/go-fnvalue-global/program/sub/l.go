package sub

