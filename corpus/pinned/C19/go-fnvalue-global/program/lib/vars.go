package lib

var Oracle func() bool
var Signal func()

