package lib

