package inner

