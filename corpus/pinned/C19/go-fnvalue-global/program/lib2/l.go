package lib2

