package lib2

var Oracle func() bool
var Signal func()

