package libf

