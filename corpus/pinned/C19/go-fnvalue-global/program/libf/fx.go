package libf

