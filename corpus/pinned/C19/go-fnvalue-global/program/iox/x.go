package iox

