package libs

